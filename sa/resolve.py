"""E2 — callee resolution over the parsed repository (no imports, no execution).

``Resolver.resolve(fi, call)`` returns the FunctionInfo(s) a call may reach:
local/nested defs, module-level defs through imports and re-exports, ``self.m`` via the class and
its bases, ``mod.f``, ``Class.m``, receivers whose class is evident from annotations / constructor
assignments, and (optionally) a unique-method-name fallback.  Unresolved calls return [].
"""

from __future__ import annotations

import ast
import builtins

from .loader import ClassInfo, FunctionInfo, Module, Repo, walk_scope

_COMMON_METHOD_NAMES: set[str] = set()
for _t in (dict, list, str, bytes, set, tuple, int, float, bytearray, frozenset, object, memoryview):
    _COMMON_METHOD_NAMES |= set(dir(_t))
_COMMON_METHOD_NAMES |= {
    "read", "write", "close", "flush", "open", "acquire", "release", "get", "put", "send", "recv", "start", "join",
    "run", "stop", "set", "wait", "cancel", "seek", "tell", "getvalue", "readline", "fileno", "shutdown", "accept",
    "connect", "bind", "listen", "settimeout", "validate", "process", "debug", "info", "warning", "error",
    "exception", "log", "items", "keys", "values", "encode", "decode", "post", "head", "request", "load", "dump",
    "loads", "dumps", "match", "search", "fullmatch", "sub", "group", "add", "remove", "discard", "update", "pop",
    "clear", "copy", "emit", "result", "done", "submit", "to_pylist", "to_pydict", "cast", "slice", "schema",
    "serialize", "deserialize", "name", "reset", "next", "throw", "poll", "kill", "terminate", "communicate",
}


class Resolver:
    def __init__(self, repo: Repo) -> None:
        self.repo = repo
        self._mro_cache: dict[str, list[ClassInfo]] = {}
        self._attr_types: dict[str, dict[str, ClassInfo]] = {}
        self._method_index_cache: dict[str, list[FunctionInfo]] | None = None
        self.stats = {"calls": 0, "resolved": 0, "heuristic": 0}
        self._scope_cache: dict[tuple[str, int], tuple] = {}
        self._tip: set[tuple[str, int]] = set()
        self._type_cache: dict[tuple[str, int], ClassInfo | None] = {}

    def methods_named(self, name: str) -> list[FunctionInfo]:
        if self._method_index_cache is None:
            self._method_index_cache = {}
        if name not in self._method_index_cache:
            out: list[FunctionInfo] = []
            for m in self.repo.modules_with_text("def " + name):
                for ci in m.classes.values():
                    if name in ci.methods:
                        out.append(ci.methods[name])
            self._method_index_cache[name] = out
        return self._method_index_cache[name]

    # ------------------------------------------------------------------ classes
    def class_of(self, fi: FunctionInfo) -> ClassInfo | None:
        cur: FunctionInfo | None = fi
        while cur is not None:
            if cur.cls is not None:
                return cur.cls
            cur = cur.parent
        return None

    def mro(self, ci: ClassInfo) -> list[ClassInfo]:
        if ci.fq in self._mro_cache:
            return self._mro_cache[ci.fq]
        out = [ci]
        self._mro_cache[ci.fq] = out
        for b in ci.node.bases:
            base = self._class_from_expr(ci.module, b)
            if base is not None:
                for c in self.mro(base):
                    if c not in out:
                        out.append(c)
        return out

    def base_names(self, ci: ClassInfo) -> list[str]:
        """Names of all bases incl. unresolved (builtin / third-party) ones, transitively."""
        out: list[str] = []
        for c in self.mro(ci):
            for b in c.node.bases:
                base = self._class_from_expr(c.module, b)
                if base is None:
                    out.append(ast.unparse(b))
        return out

    def _class_from_expr(self, m: Module, e: ast.expr) -> ClassInfo | None:
        if isinstance(e, ast.Subscript):
            e = e.value
        if isinstance(e, ast.Constant) and isinstance(e.value, str):
            try:
                e = ast.parse(e.value, mode="eval").body
            except SyntaxError:
                return None
        if isinstance(e, ast.BinOp) and isinstance(e.op, ast.BitOr):
            # X | None -> X
            for side in (e.left, e.right):
                if not (isinstance(side, ast.Constant) and side.value is None):
                    r = self._class_from_expr(m, side)
                    if r is not None:
                        return r
            return None
        if isinstance(e, ast.Name):
            r = self.repo.resolve_name_global(m, e.id)
            return r if isinstance(r, ClassInfo) else None
        if isinstance(e, ast.Attribute) and isinstance(e.value, ast.Name):
            r = self.repo.resolve_name_global(m, e.value.id)
            if isinstance(r, Module):
                r2 = self.repo.resolve_name_global(r, e.attr)
                return r2 if isinstance(r2, ClassInfo) else None
        return None

    def find_method(self, ci: ClassInfo, name: str) -> FunctionInfo | None:
        for c in self.mro(ci):
            if name in c.methods:
                return c.methods[name]
        return None

    def attr_types(self, ci: ClassInfo) -> dict[str, ClassInfo]:
        """self.<attr> -> class, from class-level annotations and ``self.x = Cls(...)``/annotated assigns."""
        if ci.fq in self._attr_types:
            return self._attr_types[ci.fq]
        out: dict[str, ClassInfo] = {}
        self._attr_types[ci.fq] = out
        for c in reversed(self.mro(ci)):
            for st in c.node.body:
                if isinstance(st, ast.AnnAssign) and isinstance(st.target, ast.Name):
                    t = self._class_from_expr(c.module, st.annotation)
                    if t is not None:
                        out[st.target.id] = t
            for fn in c.methods.values():
                params = self._param_types(fn)
                for n in walk_scope(fn.node):
                    tgt = None
                    val = None
                    ann = None
                    if isinstance(n, ast.Assign) and len(n.targets) == 1:
                        tgt, val = n.targets[0], n.value
                    elif isinstance(n, ast.AnnAssign):
                        tgt, val, ann = n.target, n.value, n.annotation
                    if not (isinstance(tgt, ast.Attribute) and isinstance(tgt.value, ast.Name) and tgt.value.id == "self"):
                        continue
                    t = self._class_from_expr(c.module, ann) if ann is not None else None
                    if t is None and isinstance(val, ast.Call):
                        t = self._class_from_expr(c.module, val.func)
                    if t is None and isinstance(val, ast.Name) and val.id in params:
                        t = params[val.id]
                    if t is not None:
                        out.setdefault(tgt.attr, t)
        return out

    def _param_types(self, fi: FunctionInfo) -> dict[str, ClassInfo]:
        out: dict[str, ClassInfo] = {}
        a = fi.node.args
        for p in [*a.posonlyargs, *a.args, *a.kwonlyargs]:
            if p.annotation is not None:
                t = self._class_from_expr(fi.module, p.annotation)
                if t is not None:
                    out[p.arg] = t
        return out

    def type_of(self, fi: FunctionInfo, e: ast.expr, _depth: int = 0) -> ClassInfo | None:
        if _depth > 4:
            return None
        key = (fi.fq, id(e))
        if key in self._type_cache:
            return self._type_cache[key]
        if key in self._tip:
            return None
        self._tip.add(key)
        try:
            r = self._type_of(fi, e, _depth)
        finally:
            self._tip.discard(key)
        if not self._tip:
            self._type_cache[key] = r
        return r

    def _type_of(self, fi: FunctionInfo, e: ast.expr, _depth: int) -> ClassInfo | None:
        if isinstance(e, ast.Name):
            if e.id in ("self", "cls"):
                return self.class_of(fi)
            cur: FunctionInfo | None = fi
            while cur is not None:
                pt = self._param_types(cur)
                if e.id in pt:
                    return pt[e.id]
                for n in walk_scope(cur.node):
                    if isinstance(n, ast.AnnAssign) and isinstance(n.target, ast.Name) and n.target.id == e.id:
                        t = self._class_from_expr(cur.module, n.annotation)
                        if t is not None:
                            return t
                    if isinstance(n, ast.Assign) and len(n.targets) == 1 and isinstance(n.targets[0], ast.Name) and n.targets[0].id == e.id:
                        t = self.type_of(cur, n.value, _depth + 1)
                        if t is not None:
                            return t
                    if isinstance(n, (ast.With, ast.AsyncWith)):
                        for it in n.items:
                            if isinstance(it.optional_vars, ast.Name) and it.optional_vars.id == e.id:
                                t = self.type_of(cur, it.context_expr, _depth + 1)
                                if t is not None:
                                    return t
                cur = cur.parent
            return None
        if isinstance(e, ast.Attribute):
            base = self.type_of(fi, e.value, _depth + 1)
            if base is not None:
                return self.attr_types(base).get(e.attr)
            return None
        if isinstance(e, ast.Call):
            c = self._class_from_expr(fi.module, e.func)
            if c is not None:
                return c
            for callee in self.resolve(fi, e, heuristic=False, count=False):
                if callee.node.returns is not None:
                    t = self._class_from_expr(callee.module, callee.node.returns)
                    if t is not None:
                        return t
            return None
        if isinstance(e, ast.Await):
            return self.type_of(fi, e.value, _depth + 1)
        return None

    # ------------------------------------------------------------------ calls
    def resolve(self, fi: FunctionInfo, call: ast.Call, *, heuristic: bool = True, count: bool = True) -> list[FunctionInfo]:
        r = self._resolve(fi, call, heuristic)
        if count:
            self.stats["calls"] += 1
            if r:
                self.stats["resolved"] += 1
        return r

    def _ctor(self, ci: ClassInfo) -> list[FunctionInfo]:
        out = []
        for nm in ("__init__", "__post_init__", "__new__"):
            f = self.find_method(ci, nm)
            if f is not None:
                out.append(f)
        return out

    def _resolve(self, fi: FunctionInfo, call: ast.Call, heuristic: bool) -> list[FunctionInfo]:
        f = call.func
        m = fi.module
        if isinstance(f, ast.Name):
            cur: FunctionInfo | None = fi
            while cur is not None:
                if f.id in cur.nested:
                    return [cur.nested[f.id]]
                cur = cur.parent
            # local alias of a function:  g = self._helper ; g()
            tgt = self._local_alias(fi, f.id)
            if tgt is not None:
                return tgt
            r = self.repo.resolve_name_global(m, f.id)
            if isinstance(r, FunctionInfo):
                return [r]
            if isinstance(r, ClassInfo):
                return self._ctor(r)
            return []
        if isinstance(f, ast.Attribute):
            v = f.value
            # super().m()
            if isinstance(v, ast.Call) and isinstance(v.func, ast.Name) and v.func.id == "super":
                ci = self.class_of(fi)
                if ci is not None:
                    for c in self.mro(ci)[1:]:
                        if f.attr in c.methods:
                            return [c.methods[f.attr]]
                return []
            if isinstance(v, ast.Name):
                r = self.repo.resolve_name_global(m, v.id) if not self._is_local(fi, v.id) else None
                if isinstance(r, Module):
                    r2 = self.repo.resolve_name_global(r, f.attr)
                    if isinstance(r2, FunctionInfo):
                        return [r2]
                    if isinstance(r2, ClassInfo):
                        return self._ctor(r2)
                    return []
                if isinstance(r, ClassInfo):
                    meth = self.find_method(r, f.attr)
                    return [meth] if meth is not None else []
            t = self.type_of(fi, v)
            if t is not None:
                meth = self.find_method(t, f.attr)
                if meth is not None:
                    return [meth]
                # subclasses may define it
                subs = [fn for fn in self.methods_named(f.attr) if fn.cls is not None and t in self.mro(fn.cls)]
                return subs
            if heuristic and f.attr not in _COMMON_METHOD_NAMES and not hasattr(builtins, f.attr):
                cands = self.methods_named(f.attr)
                if len(cands) == 1:
                    self.stats["heuristic"] += 1
                    return list(cands)
            return []
        return []

    def _scope_facts(self, fi: FunctionInfo) -> tuple[set[str], dict[str, list[ast.expr]]]:
        """(names bound in fi, name -> values of simple `name = <Name|Attribute>` assignments), computed once."""
        key = (fi.fq, id(fi.node))
        ent = self._scope_cache.get(key)
        if ent is None or ent[0] is not fi.node:
            a = fi.node.args
            bound = {p.arg for p in [*a.posonlyargs, *a.args, *a.kwonlyargs]}
            aliases: dict[str, list[ast.expr]] = {}
            for n in walk_scope(fi.node):
                if isinstance(n, ast.Name) and isinstance(n.ctx, ast.Store):
                    bound.add(n.id)
                if isinstance(n, ast.Assign) and len(n.targets) == 1 and isinstance(n.targets[0], ast.Name) and isinstance(n.value, (ast.Attribute, ast.Name)):
                    aliases.setdefault(n.targets[0].id, []).append(n.value)
            ent = (fi.node, bound, aliases)
            self._scope_cache[key] = ent
        return ent[1], ent[2]

    def _is_local(self, fi: FunctionInfo, name: str) -> bool:
        return name in self._scope_facts(fi)[0]

    def _local_alias(self, fi: FunctionInfo, name: str) -> list[FunctionInfo] | None:
        for v in self._scope_facts(fi)[1].get(name, []):
            if True:
                if isinstance(v, ast.Attribute) or isinstance(v, ast.Name):
                    fake = ast.Call(func=v, args=[], keywords=[])
                    if isinstance(v, ast.Name) and v.id == name:
                        return None
                    r = self._resolve(fi, fake, False)
                    if r:
                        return r
        return None

    # ------------------------------------------------------------------ call graph helpers
    def calls_in(self, fi: FunctionInfo) -> list[ast.Call]:
        return [n for n in walk_scope(fi.node) if isinstance(n, ast.Call)]

    def callees(self, fi: FunctionInfo, *, heuristic: bool = True) -> dict[FunctionInfo, list[ast.Call]]:
        out: dict[FunctionInfo, list[ast.Call]] = {}
        for c in self.calls_in(fi):
            for t in self.resolve(fi, c, heuristic=heuristic):
                out.setdefault(t, []).append(c)
        return out

    def reachable(self, roots: list[FunctionInfo], *, heuristic: bool = True, depth: int | None = None, include_nested_defs: bool = True) -> dict[FunctionInfo, tuple[FunctionInfo | None, ast.Call | None]]:
        """Functions reachable from roots through resolved calls -> (caller, call site) of first discovery."""
        seen: dict[FunctionInfo, tuple[FunctionInfo | None, ast.Call | None]] = {r: (None, None) for r in roots}
        frontier = list(roots)
        d = 0
        while frontier and (depth is None or d < depth):
            nxt: list[FunctionInfo] = []
            for fi in frontier:
                for callee, sites in self.callees(fi, heuristic=heuristic).items():
                    if callee not in seen:
                        seen[callee] = (fi, sites[0])
                        nxt.append(callee)
            frontier = nxt
            d += 1
        return seen

    def callers_of(self, target: FunctionInfo, *, heuristic: bool = True) -> list[tuple[FunctionInfo, ast.Call]]:
        out = []
        for fi in self.repo.all_functions():
            for c in self.calls_in(fi):
                if target in self.resolve(fi, c, heuristic=heuristic, count=False):
                    out.append((fi, c))
        return out

    def chain(self, seen: dict[FunctionInfo, tuple[FunctionInfo | None, ast.Call | None]], fi: FunctionInfo) -> list[str]:
        out = []
        cur: FunctionInfo | None = fi
        while cur is not None:
            caller, site = seen.get(cur, (None, None))
            out.append(cur.fq if site is None else f"{cur.fq} (called at {caller.loc(site)})")  # type: ignore[union-attr]
            cur = caller
        return out[::-1]


def call_name(call: ast.Call) -> str:
    """Dotted text of the callee expression (``self._x.open``) or '' for complex expressions."""
    f = call.func
    parts: list[str] = []
    while isinstance(f, ast.Attribute):
        parts.append(f.attr)
        f = f.value
    if isinstance(f, ast.Name):
        parts.append(f.id)
        return ".".join(reversed(parts))
    if isinstance(f, ast.Call):
        inner = call_name(f)
        return (inner + "()." + ".".join(reversed(parts))) if parts else inner + "()"
    return ".".join(reversed(parts))


def last_attr(call: ast.Call) -> str:
    f = call.func
    if isinstance(f, ast.Attribute):
        return f.attr
    if isinstance(f, ast.Name):
        return f.id
    return ""
