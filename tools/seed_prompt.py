#!/venv/bin/python
"""Print the sub-agent prompt for seeding a mutation against one property (text of the property only)."""
import json, sys
pid = sys.argv[1]
rec = None
for l in open('/verif/properties.jsonl'):
    p = json.loads(l)
    if p['id'] == pid:
        rec = p
assert rec
rnd = sys.argv[2] if len(sys.argv) > 2 else ""
wt = f"/tmp/wt/{pid}{rnd}"
nums = "(3, 4)" if rnd else "(1, 2)"
print(f"""You are helping evaluate bug-detection tooling by seeding realistic regressions into a Python library.

Repository: a scratch git worktree of Query-farm/vgi-rpc-python at {wt} (HEAD of the current development branch, which already contains a number of recent 'fix:' commits; work ONLY there; never touch /repo, never read or use /verif). Python: /venv/bin/python (the library's dependencies are installed there). No network is available.

The property below is supposed to hold for this library:

{json.dumps(rec, indent=1)}

Your task: produce TWO independent changes (mutations) to the library source under {wt}/vgi_rpc/ (not the tests, not docs) that each BREAK this property while
 (a) the package still imports and type-checks as far as the suite checks it, and
 (b) the existing pinned test suite still passes. Run it with:  /venv/bin/python /opt/suite/run_suite.py {wt}
     (takes roughly 5-30 minutes depending on machine load; success = a line containing 'stable_not_passed=0', OR 'stable_not_passed=1' where the only item is `tests.__init__::mypy-status` — that item fails in fresh worktrees of this sandbox regardless of any change (missing `tenacity` stub), treat it as environmental. Several hundred HTTP-over-real-socket tests fail in this sandbox regardless of your change; only the 'stable' set is judged by that script. The machine is shared and heavily loaded: timeout-sensitive tests may flake (the script re-runs a few failures in isolation; re-run others yourself in isolation before blaming your change), and a full run occasionally hangs in `tests/test_conformance.py::TestLargeData::test_large_list[subprocess]` — if a run makes no progress for 15 minutes, kill that xdist worker (`pkill -9 -f "{wt}/tests/serve_conformance"`) or restart with `--deselect` of that test. Run targeted test files first (`/opt/suite/run_suite.py {wt} tests/test_x.py ...`), and the full suite once per mutation at the end.
Each change must need something SPECIFIC to manifest: a particular thread interleaving, a crash/fault at a particular point, a multi-step sequence of operations, an unusual input, a particular configuration, or two cooperating code sites that each look fine alone. It must NOT be something ordinary use would expose at once. Make each look like a plausible small refactor / optimisation / regression a maintainer could really write (a few lines; not a sabotage comment, no dead code, no renamed-for-no-reason identifiers). The two mutations should touch different mechanisms/sites where feasible.

For each mutation n in {nums} deliver, in /tmp/seed_out/{pid}/<n>/ :
  - patch.diff  : `git -C {wt} diff` of the change against HEAD (must apply cleanly with `git apply` on a clean checkout)
  - demo.py     : a standalone demonstration, run as `cd {wt} && PYTHONPATH={wt} /venv/bin/python /tmp/seed_out/{pid}/<n>/demo.py`, that exits NON-ZERO (or raises) WITH the change applied and exits 0 WITHOUT it. Verify both directions yourself. In-process transports are available (e.g. `vgi_rpc.rpc.serve_pipe`/`connect`-style helpers, and `vgi_rpc.http.make_sync_client` gives an in-process HTTP client without sockets); look at tests/ for usage examples. Keep the demo deterministic (control interleavings with events/barriers or by calling internals directly, rather than sleeping and hoping).
  - notes.md    : which property clause breaks, the exact site(s) changed, what is needed for it to manifest, and the commands you ran with their results (suite result line, demo result with and without the patch).
Do not commit anything. Never use `git stash` (refs/stash is shared by every worktree of the repository and other agents use their worktrees concurrently: a pop can hand you someone else's change); to set a change aside use `git diff > file; git checkout -- .` and later `git apply file`. When finished, leave the worktree clean (`git -C {wt} checkout -- . && git -C {wt} status --short` shows nothing). Work one mutation at a time (apply, run suite, save patch, revert). If a candidate fails the suite, discard it and try another idea. Final answer: a short summary of both mutations (files/functions changed, how they manifest) and confirmation of the checks you ran.""")
