#!/bin/sh
# Run the pinned suite file by file (robust against load-induced hangs of the shared session
# fixtures) and log, per file, how many stable tests did not pass.
# usage: suite_chunks.sh <repo_dir> <out_log>
R="$1"; OUT="$2"; : > "$OUT"
cd "$R" || exit 2
for f in tests/test_*.py tests/__init__.py tests/conftest.py tests/_*.py tests/serve_*.py; do
  [ -f "$f" ] || continue
  r=$(timeout 2400 /venv/bin/python /opt/suite/run_suite.py "$R" "$f" -n 3 2>&1 | head -30 | tr '\n' ' ' | cut -c1-900)
  echo "$f :: $r" >> "$OUT"
done
echo ALLDONE >> "$OUT"
