#!/venv/bin/python
"""usage: refactor_variants.py <unparse|rename|ifelse> <outdir> — behaviour-preserving variants of /repo/vgi_rpc (see sa/variants.py)."""
import os, sys
sys.path.insert(0, os.path.dirname(os.path.dirname(os.path.abspath(__file__))))
from sa.variants import build
build(sys.argv[1], sys.argv[2])
