#!/venv/bin/python
"""Prompt for a checker-building sub-agent: tools/builder_prompt.py G1 C22 C24 ..."""
import sys
group, props = sys.argv[1], sys.argv[2:]
print(f"""You are building static-analysis checkers for a verification framework that lives in /verif and analyses the Python library in /repo (Query-farm/vgi-rpc-python). Your assignment (group {group}): properties {', '.join(props)}.

READ FIRST, carefully:
  1. /verif/DESIGN.md — §2 (ground rules), §3 (rule families), the §5 entry of each of your properties, §6 (deviations already reproduced), Appendix A.
  2. /verif/sa/README.md — the engine API. Then skim the engine sources you will use (/verif/sa/core.py, util.py, cfg.py, resolve.py, exc.py, locks.py, regexlang.py).
  3. Two finished examples: /verif/sa/props/c09.py + /verif/sa/mutants/c09.py and /verif/sa/props/c23.py + /verif/sa/mutants/c23.py. Match their style and depth.
  4. The full text of each of your properties in /verif/properties.jsonl (one JSON per line, field "id"); the anchors name the files and mechanisms.
  5. The anchored source files in /repo (read them fully — the checker must be grounded in what the code actually does today).

TECHNIQUE CONSTRAINT: static analysis only. A checker parses /repo's current source (through the engine) and decides structural clauses. It must never import or execute code from /repo, never run tests, never call a solver. (You MAY run small throw-away scripts against the real library under /tmp to confirm that a suspected defect is genuine — that is investigation, not part of the checker.)

FOR EACH PROPERTY Cnn deliver:
  a. /verif/sa/props/cnn.py with `META` and `run(ctx)`, deciding the clauses planned in DESIGN §5 (and more where you see further necessary conditions whose truth is visible in the code's shape). Aim for 10-30 obligations per property covering every mechanism listed in the property's anchors, each a genuine necessary condition; set ctx.explanation / ctx.not_decided / assumptions honestly.
  b. /verif/sa/mutants/cnn.py with 8-20 realistic mutants: for every rule at least one mutant it kills (a small plausible regression that still compiles: a dropped check, a narrowed handler, a moved call, an off-by-one, a lock removed, a wrong constant...), plus 2-5 "clean" twins (behaviour-preserving refactors / acceptable repairs) on which the checker must stay silent. Run `/venv/bin/python -m sa.selftest Cnn` from /verif until every mutant is `killed` and every twin `clean-ok` (no MISSED / FALSE-ALARM / analysis-error).
  c. `cd /verif && ./check Cnn` must exit 0 on the current tree — UNLESS the tree genuinely violates a clause. DESIGN §5/§6 lists the deviations expected today; the tree is at the same pinned commit plus a few small 'fix:' commits (see `git -C /repo log`). For each violation your checker reports on the current tree: first decide whether it is a genuine defect (reproduce it against the real library with a small script saved as /verif/repro/Cnn_<slug>.py that prints what fails) or a false alarm (then fix your rule). Never loosen a correct rule to make it quiet; never keep a rule that over-demands.
  d. Do NOT edit /repo, /verif/known_findings.json, /verif/MANIFEST.json, /verif/DESIGN.md or the shared engine modules /verif/sa/*.py (other groups are using them concurrently). If you need a helper, put it in your own module or in /verif/sa/props/_{group.lower()}_helpers.py. If you believe the engine has a bug, work around it locally and tell me. Do NOT run git commands that write (no commit/add/checkout/stash) in /verif or /repo.
  e. Keep each quick check under ~2 s of analysis time.

R-noalarm matters as much as detection: the checkers will also be run on trees containing behaviour-preserving refactors, and any alarm there counts against us. Prefer semantic decisions (CFG dominance/reachability queries, handler coverage via ExcModel, LockSets, mini_eval on guards, dataflow through assignments) over syntactic pattern matching; where you must recognise an idiom, accept the reasonable family of equivalent spellings and raise AnalysisError (exit 2) outside it.

FINAL REPORT (your last message), per property: (1) clauses decided (rule, instance keys), number of obligations, selftest result; (2) every violation reported on the current tree as a tuple (property, rule, function fq, instance) with a one-line description of the genuine defect, the repro script path and its output, and a suggested minimal fix (unified diff text, not applied); (3) anything you could not decide and why.""")
