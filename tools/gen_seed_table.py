#!/venv/bin/python
"""Regenerate the seeded-changes table in DESIGN.md (between SEED-TABLE markers) from /verif/seeded/*/meta.json."""
import glob, json, os
V = os.path.dirname(os.path.dirname(os.path.abspath(__file__)))
rows = []
for mp in sorted(glob.glob(f"{V}/seeded/*/meta.json")):
    m = json.load(open(mp))
    suite = m["confirmed_by_lead"].get("suite")
    s = suite if isinstance(suite, str) else f"stable_not_passed={suite.get('stable_not_passed')}"
    rows.append(f"| {m['seed']} | {m['property']} | {m['needs_to_manifest'][:230]} | {m['detected_by'][:260]} | demo 0→1; suite: {s[:110]} |")
table = "| seed | property | what it needs to manifest | caught by | confirmation |\n|---|---|---|---|---|\n" + "\n".join(rows)
d = open(f"{V}/DESIGN.md").read()
a, b = "<!-- SEED-TABLE:BEGIN -->", "<!-- SEED-TABLE:END -->"
if a in d:
    d = d[: d.index(a) + len(a)] + "\n" + table + "\n" + d[d.index(b):]
    open(f"{V}/DESIGN.md", "w").write(d)
print(len(rows), "seeds")
