#!/venv/bin/python
"""Regenerate /verif/MANIFEST.json from the checker modules present in sa/props (META dicts)."""
import importlib, json, os, sys
V = os.path.dirname(os.path.dirname(os.path.abspath(__file__)))
sys.path.insert(0, V)
props = [json.loads(l) for l in open(os.path.join(V, "properties.jsonl"))]
NA = {
    "C02": "value-level round-trip equality over every value of every supported type is decided by pyarrow's runtime conversions; no structural clause is both a necessary condition and robust to refactoring (DESIGN §7)",
    "C03": "round-trip equality over generated dataclass shapes and agreement of the msgpack/Arrow codecs are value-level; no sound static clause in reach (DESIGN §7)",
}
checks, na = [], []
CLAIMED = {l.strip() for l in open(os.path.join(V, "claimed.txt")) if l.strip()}
for p in props:
    pid = p["id"]
    if pid not in CLAIMED:
        na.append({"property_id": pid, "reason": NA.get(pid, "static checker for this property is not built yet (work in progress; see DESIGN §5 for the planned clauses)")})
        continue
    try:
        mod = importlib.import_module(f"sa.props.{pid.lower()}")
    except ModuleNotFoundError:
        na.append({"property_id": pid, "reason": NA.get(pid, "static checker for this property is not built yet (work in progress; see DESIGN §5 for the planned clauses)")})
        continue
    meta = getattr(mod, "META", {})
    checks.append({
        "property_id": pid,
        "quick_cmd": f"./check {pid} --tier quick",
        "thorough_cmd": f"./check {pid} --tier thorough",
        "evidence_file": f"/verif/evidence/{pid}.json",
        "replay_cmd_template": "cat {path}",
        "engine": "sa",
        "level_claimed": {
            "category": "other",
            "text": meta.get("text", (mod.__doc__ or "").strip().split("\n\n")[0]),
            "design_ref": f"DESIGN.md §5 {pid}",
        },
        "level_note": meta.get("note", "Static analysis of the current source only: decides the structural clauses named in the level text (necessary conditions), not the full behavioural statement. Trusted: CPython ast, the rule tables in /verif/sa, the library facts listed in DESIGN Appendix A.5."),
        "technique": meta.get("technique", "static analysis: AST/CFG rules specific to this repository"),
    })
man = {
    "version": 1,
    "setup_cmd": "true",
    "hooks": {
        "guard": "VGI_RPC_VERIF",
        "enable": "none needed: the checks parse /repo's working tree with /venv/bin/python and execute nothing from it (guard reserved, unused)",
        "baseline_off_cmd": "cd /repo && /venv/bin/python -m pytest -ra -q -p no:cacheprovider --timeout=900 --continue-on-collection-errors",
        "source_commits": [],
        "add_only": True,
    },
    "engines": [{"name": "sa", "path": "/verif/sa", "serves_properties": [c["property_id"] for c in checks],
                 "kind_free_text": "repository-specific static analysis in pure Python (ast): module/class/function loader, callee resolver, statement CFG with exceptional edges and path queries, exception-escape model, lockset analysis, regex-language automata, table/sibling agreement rules"}],
    "checks": checks,
    "not_applicable": na,
    "notes": "All checks are static (no code under analysis is imported or run). exit 0 = every decided clause holds (KNOWN-FINDING lines for recorded defects listed in known_findings.json); exit 1 + VIOLATION line = unlisted violation; exit 2 + ANALYSIS-ERROR = the analysis cannot decide (anchor lost / unsupported idiom).",
}
json.dump(man, open(os.path.join(V, "MANIFEST.json"), "w"), indent=1)
print(f"claimed={len(checks)} not_applicable={len(na)}")
