#!/venv/bin/python
"""Regenerate the per-property as-built table in DESIGN.md (between the AS-BUILT-TABLE markers) from the
evidence files, mutant corpora, known_findings.json and /verif/seeded."""
import glob, importlib, json, os, re, sys
V = os.path.dirname(os.path.dirname(os.path.abspath(__file__))); sys.path.insert(0, V)
props = [json.loads(l) for l in open(f"{V}/properties.jsonl")]
kf = json.load(open(f"{V}/known_findings.json"))
claimed = {l.strip() for l in open(f"{V}/claimed.txt") if l.strip()}
rows = []
for p in props:
    pid = p["id"]
    if pid not in claimed:
        rows.append(f"| {pid} | not applicable | — | — | — | — | see §7 |")
        continue
    ev = json.load(open(f"{V}/evidence/{pid}.json"))
    cov = ev["coverage"]
    rules = sorted({s["rule"] for s in cov.get("samples", [])})
    try:
        muts = importlib.import_module(f"sa.mutants.{pid.lower()}").MUTANTS
        nm = f"{sum(m.expect=='violation' for m in muts)} / {sum(m.expect=='clean' for m in muts)}"
    except Exception:
        nm = "—"
    fixed = [f for f in kf["fixed"] if f"property={pid} " in f]
    known = [f for f in kf["findings"] if f["property"] == pid]
    seeds = sorted(os.path.basename(d) for d in glob.glob(f"{V}/seeded/{pid}-*"))
    rows.append(f"| {pid} | {cov['obligations']} | {', '.join(rules)} | {nm} | {len(fixed)} fixed, {len(known)} recorded | {', '.join(seeds) or '—'} | {len(cov.get('functions_analysed', []))} functions |")
table = "| id | obligations (quick) | rule families exercised | corpus: mutants / clean twins | findings on the pinned tree | seeded changes kept | analysed |\n|---|---|---|---|---|---|---|\n" + "\n".join(rows)
d = open(f"{V}/DESIGN.md").read()
a, b = "<!-- AS-BUILT-TABLE:BEGIN -->", "<!-- AS-BUILT-TABLE:END -->"
if a in d:
    d = d[: d.index(a) + len(a)] + "\n" + table + "\n" + d[d.index(b):]
    open(f"{V}/DESIGN.md", "w").write(d)
print(table[:600])
