#!/venv/bin/python
"""Run the pinned baseline suite in a repo dir and compare with BASELINE.json stable_pass.

usage: run_suite.py <repo_dir> [pytest-args...]
exit 0 iff every stable_pass test passed. Prints the stable tests that did not pass.
"""
import json, os, subprocess, sys, tempfile, xml.etree.ElementTree as ET

def main() -> int:
    repo = os.path.abspath(sys.argv[1])
    extra = sys.argv[2:]
    base = json.load(open("/root/.vp/BASELINE.json"))
    stable = set(base["stable_pass"])
    fd, xml = tempfile.mkstemp(suffix=".junit.xml")
    os.close(fd)
    cmd = ["/venv/bin/python", "-m", "pytest", "-ra", "-q", "-p", "no:cacheprovider", "--timeout=900",
           "--continue-on-collection-errors", f"--junitxml={xml}", *extra]
    env = dict(os.environ)
    env.pop("VGI_RPC_VERIF", None)
    p = subprocess.run(cmd, cwd=repo, env=env, stdout=subprocess.PIPE, stderr=subprocess.STDOUT, text=True)
    tail = p.stdout[-1500:]
    passed = set()
    seen = set()
    try:
        root = ET.parse(xml).getroot()
    finally:
        os.unlink(xml)
    for tc in root.iter("testcase"):
        tid = f"{tc.get('classname')}::{tc.get('name')}"
        seen.add(tid)
        bad = any(ch.tag in ("failure", "error", "skipped") for ch in tc)
        if not bad:
            passed.add(tid)
    if extra:
        # partial run: only judge the stable tests that were collected
        stable &= seen
    missing = sorted(stable - passed)
    print(f"pytest exit={p.returncode} seen={len(seen)} passed={len(passed)} stable_expected={len(stable)} stable_not_passed={len(missing)}")
    for m in missing[:80]:
        print("  NOT-PASSED", m, "(not run)" if m not in seen else "")
    if missing:
        print(tail)
    return 0 if not missing else 1

if __name__ == "__main__":
    sys.exit(main())
