#!/venv/bin/python
"""Run the pinned baseline suite in a repo dir and compare with BASELINE.json stable_pass.

usage: run_suite.py <repo_dir> [pytest-args...]
exit 0 iff every stable_pass test passed. Prints the stable tests that did not pass.
"""
import json, os, subprocess, sys, tempfile, xml.etree.ElementTree as ET

def main() -> int:
    repo = os.path.abspath(sys.argv[1])
    extra = sys.argv[2:]
    base = json.load(open("/root/.vp/BASELINE.json"))
    stable = set(base["stable_pass"])
    fd, xml = tempfile.mkstemp(suffix=".junit.xml")
    os.close(fd)
    cmd = ["/venv/bin/python", "-m", "pytest", "-ra", "-q", "-p", "no:cacheprovider", "--timeout=900",
           "--continue-on-collection-errors", f"--junitxml={xml}", *extra]
    env = dict(os.environ)
    env.pop("VGI_RPC_VERIF", None)
    p = subprocess.run(cmd, cwd=repo, env=env, stdout=subprocess.PIPE, stderr=subprocess.STDOUT, text=True)
    tail = p.stdout[-1500:]
    passed = set()
    seen = set()
    try:
        root = ET.parse(xml).getroot()
    finally:
        os.unlink(xml)
    for tc in root.iter("testcase"):
        tid = f"{tc.get('classname')}::{tc.get('name')}"
        seen.add(tid)
        bad = any(ch.tag in ("failure", "error", "skipped") for ch in tc)
        if not bad:
            passed.add(tid)
    if extra:
        # partial run: only judge the stable tests that were collected
        stable &= seen
    missing = sorted(stable - passed)
    # Under heavy machine load a few subprocess/timeout-sensitive tests flake: re-run the ones that
    # did not pass, in isolation (no xdist), up to twice, before judging.
    if missing and len(missing) <= 40 and not os.environ.get("RUN_SUITE_NO_RERUN"):
        def nodeid(tid: str) -> str | None:
            cls, _, name = tid.partition("::")
            if name in ("mypy", "mypy-status", "ruff", "ruff::format"):
                return None
            parts = cls.split(".")
            mod = []
            while parts and not parts[0][:1].isupper():
                mod.append(parts.pop(0))
            path = "/".join(mod) + ".py"
            return "::".join([path, *parts, name])
        for _attempt in range(2):
            ids = {m: nodeid(m) for m in missing}
            todo = [v for v in ids.values() if v]
            if not todo:
                break
            fd2, xml2 = tempfile.mkstemp(suffix=".junit.xml"); os.close(fd2)
            subprocess.run(["/venv/bin/python", "-m", "pytest", "-q", "-p", "no:cacheprovider", "-o", "addopts=", "--timeout=900", f"--junitxml={xml2}", *todo],
                           cwd=repo, env=env, stdout=subprocess.DEVNULL, stderr=subprocess.DEVNULL)
            try:
                for tc in ET.parse(xml2).getroot().iter("testcase"):
                    tid = f"{tc.get('classname')}::{tc.get('name')}"
                    if not any(ch.tag in ("failure", "error", "skipped") for ch in tc):
                        passed.add(tid)
            except Exception:
                pass
            finally:
                os.unlink(xml2)
            missing = sorted(stable - passed)
            if not missing:
                break
        print(f"(after isolated re-runs of load-sensitive tests: stable_not_passed={len(missing)})")
    print(f"pytest exit={p.returncode} seen={len(seen)} passed={len(passed)} stable_expected={len(stable)} stable_not_passed={len(missing)}")
    for m in missing[:80]:
        print("  NOT-PASSED", m, "(not run)" if m not in seen else "")
    if missing:
        print(tail)
    return 0 if not missing else 1

if __name__ == "__main__":
    sys.exit(main())
