#!/bin/sh
# usage: confirm_seed.sh <Cnn> <n> [suite]  — confirm a seeded change in a scratch worktree of the CURRENT /repo HEAD:
# patch applies + compiles, demo fails with it and passes without it; with "suite" also run the pinned suite with the patch.
ID="$1"; N="$2"; SUITE="$3"
SRC=/tmp/seed_out/$ID/$N
WT=/tmp/wtc/$ID-$N
rm -rf "$WT"; git -C /repo worktree prune; git -C /repo worktree add --detach "$WT" HEAD -q || exit 3
cd "$WT" || exit 3
echo "== demo WITHOUT patch"; PYTHONPATH="$WT" timeout 300 /venv/bin/python "$SRC/demo.py" > /tmp/wtc/$ID-$N.clean.out 2>&1; CLEAN=$?; echo "exit=$CLEAN"
if ! git apply "$SRC/patch.diff" 2>/tmp/wtc/$ID-$N.apply.err; then
  if ! patch -p1 -s --no-backup-if-mismatch < "$SRC/patch.diff"; then echo "PATCH-FAILED"; cat /tmp/wtc/$ID-$N.apply.err | head -5; cd /; git -C /repo worktree remove --force "$WT"; exit 4; fi
  echo "(applied with fuzz)"
fi
/venv/bin/python -m compileall -q vgi_rpc > /dev/null || echo "COMPILE-FAILED"
echo "== demo WITH patch"; PYTHONPATH="$WT" timeout 300 /venv/bin/python "$SRC/demo.py" > /tmp/wtc/$ID-$N.mut.out 2>&1; MUT=$?; echo "exit=$MUT"
git diff > /tmp/wtc/$ID-$N.rebased.diff
if [ "$SUITE" = "suite" ]; then echo "== suite WITH patch"; /venv/bin/python /opt/suite/run_suite.py "$WT" 2>&1 | head -12; fi
cd /; git -C /repo worktree remove --force "$WT"
echo "RESULT $ID/$N clean_exit=$CLEAN mutated_exit=$MUT"
