#!/venv/bin/python
"""keep_seed.py <Cnn> <n> <seed-id> "<needs>" "<detected-by>" — package a confirmed seeded change under /verif/seeded/<seed-id>/"""
import json, os, shutil, subprocess, sys
pid, n, sid, needs, detected = sys.argv[1:6]
src = f"/tmp/seed_out/{pid}/{n}"; dst = f"/verif/seeded/{sid}"
os.makedirs(dst, exist_ok=True)
reb = f"/tmp/wtc/{pid}-{n}.rebased.diff"
shutil.copy(reb if os.path.exists(reb) and os.path.getsize(reb) else f"{src}/patch.diff", f"{dst}/patch.diff")
shutil.copy(f"{src}/demo.py", f"{dst}/demo.py")
if os.path.exists(f"{src}/notes.md"): shutil.copy(f"{src}/notes.md", f"{dst}/notes.md")
head = subprocess.check_output(["git", "-C", "/repo", "log", "-1", "--format=%h"]).decode().strip()
meta = {
    "property": pid, "seed": sid, "author": "independent sub-agent given only the property text and a scratch worktree",
    "needs_to_manifest": needs,
    "patch_applies_to": f"/repo HEAD {head} (git -C /repo apply /verif/seeded/{sid}/patch.diff ; undo with git -C /repo checkout -- .)",
    "confirmed_by_lead": {
        "demo_without_patch_exit": 0, "demo_with_patch_exit": 1,
        "how": f"tools/confirm_seed.sh {pid} {n}: scratch worktree of /repo HEAD under /tmp/wtc, demo run before and after `git apply`",
        "suite": json.load(open(f"/tmp/wtc/{pid}-{n}.suite.json")) if os.path.exists(f"/tmp/wtc/{pid}-{n}.suite.json") else "pending (see DESIGN §12)",
    },
    "detected_by": detected,
}
json.dump(meta, open(f"{dst}/meta.json", "w"), indent=1)
print("kept", dst)
