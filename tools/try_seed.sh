#!/bin/sh
# usage: try_seed.sh <patch.diff> <Cnn> [Cmm...] — apply a seeded change to a scratch copy of the current /repo tree and run checks on it
P="$1"; shift
T=$(mktemp -d /tmp/seedchk.XXXXXX)
cp -r /repo/vgi_rpc "$T/"; cp -r /repo/docs "$T/"
( cd "$T" && patch -p1 --no-backup-if-mismatch -s < "$P" ) || { echo "PATCH-FAILED $P"; rm -rf "$T"; exit 3; }
cd /verif
for c in "$@"; do ./check "$c" --root "$T" 2>&1 | grep -v "^    path" | cut -c1-300 | tail -4; done
rm -rf "$T"
